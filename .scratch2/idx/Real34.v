(* AUDIT2: FRESH recorded case /verif/.work/C04/run-C04/cases_10.v case_138 (P04 index 34; written by the 15:52 check run, after the authors' examples):
   10 stanzas, scoped variables, inherited name `scope`; both recorded runs succeed.  strict_lazy_iso_run_one_scoped_real_partial applies. *)
From Coq Require Import Permutation List Bool NArith.
From TSG Require Import Model.Run Model.Stdlib Model.IdxBridge Proofs.BaseFacts Proofs.IdxStrict Proofs.IdxLazy Proofs.IdxBridge Proofs.IdxReal Proofs.SLExpr Proofs.StrictLazy
  Proofs.SL2Force Proofs.SL2Expr Proofs.SL2Stmt Proofs.SL2Whole Proofs.ScPermSim Proofs.ScPermSwap Proofs.ScPermExec Proofs.BlockPermRen Proofs.BlockPermGraph Proofs.BlockPermExec Proofs.SLAny Proofs.BlockPermStd Proofs.IdxRealExample.
From TSG Require Props.C02.
Require Import P04sel.
Import ListNotations.
Open Scope N_scope.
Definition r := pc_34_run. Definition t := pc_34_tree.
Lemma idx_b : run_idx_agreeb r = true. Proof. vm_compute. reflexivity. Qed.
Lemma idx : idx_agree (ri_file r) (ri_smatches r) (ri_lmatches r). Proof. apply idx_agreeb_spec. exact idx_b. Qed.
Lemma old_perm_false : lmatches_of (ri_smatches r) <> lmatches_of (real_smatches r). Proof. vm_compute. discriminate. Qed.
Lemma file_ok_34 : file_ok2 std_okfn (fun _ => false) (normalize_file (ri_file r)) (f_stanzas (normalize_file (ri_file r))) (real_smatches r).
Proof.
  let f := eval vm_compute in (normalize_file (ri_file r)) in let m := eval vm_compute in (real_smatches r) in change (file_ok2 std_okfn (fun _ => false) f (f_stanzas f) m).
  cbn [file_ok2 f_stanzas]. repeat split; repeat constructor; unfold match_ok2; cbn; repeat split; try reflexivity; try discriminate; try (intros; discriminate); try okf; try constructor.
Qed.
Lemma blocks_ok_34 : Forall (pm_ok2 (normalize_file (ri_file r)) std_okfn) (ri_lmatches r).
Proof.
  let f := eval vm_compute in (normalize_file (ri_file r)) in let m := eval vm_compute in (ri_lmatches r) in change (Forall (pm_ok2 f std_okfn) m).
  repeat (apply Forall_cons; [intros st E; vm_compute in E; inversion E; subst st; (split; [|apply Forall_nil]);
    cbn [All st_stmts sstmt svar mexpr mattr fexpr is_capture snd fst f_shorthands find_shorthand]; slv2|]). apply Forall_nil.
Qed.
Lemma globals_34 : forall glob, check_globals (f_globals (ri_file r)) (globals_nested (ri_supplied r)) = Ok glob ->
  forall name v, globals_get glob name = Some v -> vall (fun i => i < N.of_nat (length (@nil gnode))) v.
Proof. intros glob E. vm_compute in E. inversion E; subst glob. intros name v H. discriminate. Qed.
(* reflection for inh_antichain *)
Definition isdef sc n name := match scoped_lookup sc n name with Some _ => true | None => false end.
Definition antichain_b (t : tree) (fl : file) (sc : list (N * vframe value)) : bool :=
  forallb (fun name => forallb (fun n => negb (isdef sc n name) || forallb (fun a => negb (isdef sc a name)) (anc t n)) (map fst sc)) (f_inherited fl).
Lemma scopes_get_in sc n f : scopes_get sc n = Some f -> In n (map fst sc).
Proof. induction sc as [|[m f'] sc IH]; cbn; [discriminate|]. destruct (N.eqb_spec n m); [subst; auto|auto]. Qed.
Lemma antichain_refl t fl sc : antichain_b t fl sc = true -> inh_antichain t fl sc.
Proof.
  intros H name n a Hi Ha Hn Haa. unfold antichain_b in H. rewrite forallb_forall in H. unfold inherited in Hi. apply existsb_exists in Hi as (nm & Hin & E).
  apply str_eqb_eq in E. subst nm. specialize (H name Hin). rewrite forallb_forall in H.
  assert (In n (map fst sc)). { unfold scoped_lookup in Hn. destruct (scopes_get sc n) eqn:E; [eapply scopes_get_in; eauto|congruence]. }
  specialize (H n H0). unfold isdef in H at 1. destruct (scoped_lookup sc n name); [|congruence]. cbn in H. rewrite forallb_forall in H. specialize (H a Ha).
  unfold isdef in H. destruct (scoped_lookup sc a name); [discriminate|congruence].
Qed.
Lemma anti_34 : forall s p', run_strict t (ri_file r) config0 (ri_supplied r) None (ri_rxs r) rx_captures (the_call t (ri_tbl r)) default_fuel (ri_smatches r) [] = Ok (s, p') ->
  inh_antichain t (ri_file r) (s_scoped s).
Proof. intros s p' H. apply antichain_refl. vm_compute in H. inversion H; subst s. vm_compute. reflexivity. Qed.
Lemma strict_ok : exists g p, run_one t config0 None (with_lazy r false) [] = Ok (g, p) /\ (length g > 2)%nat.
Proof. eexists. eexists. split; [vm_compute; reflexivity|vm_compute; repeat constructor]. Qed.
Lemma lazy_ok : exists g p, run_one t config0 None (with_lazy r true) [] = Ok (g, p).
Proof. eexists. eexists. vm_compute; reflexivity. Qed.
Theorem applies_34 : exists g p g' p', run_one t config0 None (with_lazy r false) [] = Ok (g, p) /\ run_one t config0 None (with_lazy r true) [] = Ok (g', p') /\
  exists rn rn', (forall i, rn' (rn i) = i) /\ (forall i, rn (rn' i) = i) /\ graph_iso rn g g'.
Proof.
  destruct strict_ok as (g & p & Es & _). destruct lazy_ok as (g' & p' & El). exists g, p, g', p'. split; [exact Es|]. split; [exact El|].
  destruct (C02.strict_lazy_iso_run_one_scoped_real_partial t r std_okfn [] (std_okfn_ok _ _) nil_closed globals_34 idx (fun _ => false) g p file_ok_34 blocks_ok_34 anti_34 Es)
    as (rn & rn' & I1 & I2 & _ & H).
  exists rn, rn'. split; [exact I1|]. split; [exact I2|]. rewrite El in H. exact H.
Qed.
Print Assumptions applies_34.
