(* AUDIT scratch: BOOLEAN mirrors (my transcription) of the match-independent part of the fragment predicates, for statistics on real
   generated files.  The capture-index equation of fexpr (see T_real16.v) is IGNORED here (taken as true), the function set is the
   largest the Props theorems allow (C02: all but `node`; C08: all but node/format/join).  Validated against the Prop predicates on the
   statements of T_frag.v at the end of this file. *)
From Coq Require Import List Bool.
From TSG Require Import Model.Run Model.Stdlib Model.Locality.
Import ListNotations.
Open Scope N_scope.

Definition okf2 (f : ident) : bool := negb (str_eqb f Lit.node).
Definition okf8 (f : ident) : bool := negb (str_eqb f Lit.node) && negb (str_eqb f Lit.format) && negb (str_eqb f Lit.join).

(* ---- v1: fexpr / fstmt ---- *)
Fixpoint b_fexpr (okf : ident -> bool) (e : expr) : bool :=
  match e with
  | EList es | ESet es => forallb (b_fexpr okf) es
  | EListComp el _ _ v _ | ESetComp el _ _ v _ => b_fexpr okf el && b_fexpr okf v
  | EScoped _ _ _ => false
  | ECall f args => okf f && forallb (b_fexpr okf) args
  | _ => true
  end.
Definition b_fvar (v : variable) : bool := match v with VarU _ _ => true | VarS _ _ _ => false end.
Definition b_fattr (okf : ident -> bool) (a : attr) := match a with Attr _ e => b_fexpr okf e end.
Definition cond_e (c : cond) := match c with CSome e _ | CNone e _ | CBool e _ => e end.
Fixpoint b_fstmt (okf : ident -> bool) (s : stmt) : bool :=
  match s with
  | SLet v e _ | SVar v e _ | SSet v e _ => b_fvar v && b_fexpr okf e
  | SNode v _ _ => b_fvar v
  | SAttrNode n attrs _ => b_fexpr okf n && forallb (b_fattr okf) attrs
  | SEdge a b _ => b_fexpr okf a && b_fexpr okf b
  | SAttrEdge a b attrs _ => b_fexpr okf a && b_fexpr okf b && forallb (b_fattr okf) attrs
  | SScan v arms _ => b_fexpr okf v && forallb (fun arm : N * list stmt * loc => forallb (b_fstmt okf) (snd (fst arm))) arms
  | SPrint vs _ => forallb (b_fexpr okf) vs
  | SIf arms _ => forallb (fun arm : list cond * list stmt * loc => forallb (fun c => b_fexpr okf (cond_e c)) (fst (fst arm)) && forallb (b_fstmt okf) (snd (fst arm))) arms
  | SFor _ _ v body _ => b_fexpr okf v && forallb (b_fstmt okf) body
  end.
Definition b_file (ps : stmt -> bool) (pa : attr -> bool) (fl : file) : bool :=
  forallb (fun st => forallb ps (st_stmts st)) (f_stanzas fl) && forallb (fun sh => forallb pa (sh_attrs sh)) (f_shorthands fl).
Definition b_file_ok (fl : file) : bool := b_file (b_fstmt okf2) (b_fattr okf2) fl.
Definition b_pm_ok (fl : file) : bool := b_file (b_fstmt okf8) (b_fattr okf8) fl.

(* ---- v2: fexpr2 / fstmt2 ---- *)
Fixpoint b_fexpr2 (pv : ident -> bool) (b : bool) (e : expr) : bool :=
  match e with
  | EList es | ESet es => forallb (b_fexpr2 pv b) es
  | EListComp el _ _ v _ | ESetComp el _ _ v _ => b_fexpr2 pv b el && b_fexpr2 pv true v
  | EUnscoped x _ => implb b (pv x)
  | EScoped sc _ _ => negb b && b_fexpr2 pv false sc
  | ECall f args => okf2 f && forallb (b_fexpr2 pv b) args
  | _ => true
  end.
Definition b_fbind2 (pv : ident -> bool) (v : variable) (e : expr) : bool :=
  match v with VarU x _ => b_fexpr2 pv (pv x) e | VarS sc _ _ => b_fexpr2 pv true sc && b_fexpr2 pv false e end.
Definition b_fmut2 (pv : ident -> bool) (v : variable) (e : expr) : bool := match v with VarU x _ => b_fexpr2 pv (pv x) e | VarS _ _ _ => false end.
Definition b_fattr2 (pv : ident -> bool) (a : attr) := match a with Attr _ e => b_fexpr2 pv false e end.
Fixpoint b_fstmt2 (pv : ident -> bool) (s : stmt) : bool :=
  match s with
  | SLet v e _ => b_fbind2 pv v e
  | SVar v e _ | SSet v e _ => b_fmut2 pv v e
  | SNode v _ _ => match v with VarU _ _ => true | VarS sc _ _ => b_fexpr2 pv true sc end
  | SAttrNode n attrs _ => b_fexpr2 pv false n && forallb (b_fattr2 pv) attrs
  | SEdge a b _ => b_fexpr2 pv false a && b_fexpr2 pv false b
  | SAttrEdge a b attrs _ => b_fexpr2 pv false a && b_fexpr2 pv false b && forallb (b_fattr2 pv) attrs
  | SScan v arms _ => b_fexpr2 pv true v && forallb (fun arm : N * list stmt * loc => forallb (b_fstmt2 pv) (snd (fst arm))) arms
  | SPrint vs _ => forallb (b_fexpr2 pv false) vs
  | SIf arms _ => forallb (fun arm : list cond * list stmt * loc => forallb (fun c => b_fexpr2 pv true (cond_e c)) (fst (fst arm)) && forallb (b_fstmt2 pv) (snd (fst arm))) arms
  | SFor _ _ v body _ => b_fexpr2 pv true v && forallb (b_fstmt2 pv) body
  end.
Definition b_file_ok2 (pv : ident -> bool) (fl : file) : bool :=
  forallb (fun st => forallb (b_fstmt2 pv) (st_stmts st)) (f_stanzas fl) &&
  forallb (fun sh => negb (pv (sh_var sh)) && forallb (b_fattr2 pv) (sh_attrs sh)) (f_shorthands fl).

(* ---- C08 step 4: sstmt ; step 5: tstmt ---- *)
Definition b_iscap (e : expr) : bool := match e with ECapture _ _ _ _ _ => true | _ => false end.
Fixpoint b_mexpr (e : expr) : bool :=
  b_fexpr okf8 e || match e with EScoped sc _ _ => b_mexpr sc | EList es => forallb b_mexpr es | _ => false end.
Definition has_sh (fl : file) (name : ident) : bool := match find_shorthand name (f_shorthands fl) with Some _ => true | None => false end.
Definition b_mattr (fl : file) (a : attr) : bool := match a with Attr name e => b_fexpr okf8 e || (b_mexpr e && negb (has_sh fl name)) end.
Definition b_svar (v : variable) : bool := match v with VarU _ _ => true | VarS sc _ _ => b_iscap sc && b_fexpr okf8 sc end.
Fixpoint b_sstmt (fl : file) (s : stmt) : bool :=
  match s with
  | SLet v e _ => b_svar v && b_fexpr okf8 e
  | SVar v e _ | SSet v e _ => b_fvar v && b_fexpr okf8 e
  | SNode v _ _ => b_svar v
  | SAttrNode n attrs _ => b_mexpr n && forallb (b_mattr fl) attrs
  | SEdge a b _ => b_mexpr a && b_mexpr b
  | SAttrEdge a b attrs _ => b_mexpr a && b_mexpr b && forallb (b_mattr fl) attrs
  | SScan v arms _ => b_fexpr okf8 v && forallb (fun arm : N * list stmt * loc => forallb (b_sstmt fl) (snd (fst arm))) arms
  | SPrint vs _ => forallb b_mexpr vs
  | SIf arms _ => forallb (fun arm : list cond * list stmt * loc => forallb (fun c => b_fexpr okf8 (cond_e c)) (fst (fst arm)) && forallb (b_sstmt fl) (snd (fst arm))) arms
  | SFor _ _ v body _ => b_fexpr okf8 v && forallb (b_sstmt fl) body
  end.
Definition b_pm_ok2 (fl : file) : bool := b_file (b_sstmt fl) (b_fattr okf8) fl.

Fixpoint b_lexpr (tn : ident -> bool) (e : expr) : bool :=
  match e with
  | EList es | ESet es => forallb (b_lexpr tn) es
  | EListComp el _ _ v _ | ESetComp el _ _ v _ => b_lexpr tn el && b_lexpr tn v
  | EUnscoped x _ => negb (tn x)
  | EScoped _ _ _ => false
  | ECall f args => okf8 f && forallb (b_lexpr tn) args
  | _ => true
  end.
Fixpoint b_texpr (tn : ident -> bool) (e : expr) : bool :=
  b_lexpr tn e || match e with EUnscoped _ _ => true | EScoped sc _ _ => b_texpr tn sc | EList es => forallb (b_texpr tn) es | _ => false end.
Definition b_tattr (tn : ident -> bool) (fl : file) (a : attr) : bool := match a with Attr name e => b_lexpr tn e || (b_texpr tn e && negb (has_sh fl name)) end.
Definition b_tassign (tn : ident -> bool) (v : variable) (e : expr) : bool :=
  match v with VarU x _ => if tn x then b_texpr tn e else b_lexpr tn e | VarS sc _ _ => b_iscap sc && b_texpr tn e end.
Fixpoint b_tstmt (tn : ident -> bool) (fl : file) (s : stmt) : bool :=
  match s with
  | SLet v e _ => b_tassign tn v e
  | SVar v e _ | SSet v e _ => b_fvar v && b_tassign tn v e
  | SNode v _ _ => match v with VarU _ _ => true | VarS sc _ _ => b_iscap sc end
  | SAttrNode n attrs _ => b_texpr tn n && forallb (b_tattr tn fl) attrs
  | SEdge a b _ => b_texpr tn a && b_texpr tn b
  | SAttrEdge a b attrs _ => b_texpr tn a && b_texpr tn b && forallb (b_tattr tn fl) attrs
  | SScan v arms _ => b_lexpr tn v && forallb (fun arm : N * list stmt * loc => forallb (b_tstmt tn fl) (snd (fst arm))) arms
  | SPrint vs _ => forallb (b_texpr tn) vs
  | SIf arms _ => forallb (fun arm : list cond * list stmt * loc => forallb (fun c => b_lexpr tn (cond_e c)) (fst (fst arm)) && forallb (b_tstmt tn fl) (snd (fst arm))) arms
  | SFor _ _ v body _ => b_lexpr tn v && forallb (b_tstmt tn fl) body
  end.
Definition b_pm_ok3 (tn : ident -> bool) (fl : file) : bool :=
  b_file (b_tstmt tn fl) (fun a => match a with Attr _ e => b_lexpr tn e end) fl.

(* ---- candidate name sets: binder names of the file, all subsets ---- *)
Fixpoint e_binders (e : expr) : list ident :=
  match e with
  | EList es | ESet es | ECall _ es => flat_map e_binders es
  | EListComp el x _ v _ | ESetComp el x _ v _ => x :: e_binders el ++ e_binders v
  | EScoped sc _ _ => e_binders sc
  | _ => []
  end.
Definition v_binders (v : variable) := match v with VarU x _ => [x] | VarS sc _ _ => e_binders sc end.
Fixpoint s_binders (s : stmt) : list ident :=
  match s with
  | SLet v e _ | SVar v e _ | SSet v e _ => v_binders v ++ e_binders e
  | SNode v _ _ => v_binders v
  | SAttrNode n attrs _ => e_binders n ++ flat_map (fun a => match a with Attr _ e => e_binders e end) attrs
  | SEdge a b _ => e_binders a ++ e_binders b
  | SAttrEdge a b attrs _ => e_binders a ++ e_binders b ++ flat_map (fun a => match a with Attr _ e => e_binders e end) attrs
  | SScan v arms _ => e_binders v ++ flat_map (fun arm : N * list stmt * loc => flat_map s_binders (snd (fst arm))) arms
  | SPrint vs _ => flat_map e_binders vs
  | SIf arms _ => flat_map (fun arm : list cond * list stmt * loc => flat_map (fun c => e_binders (cond_e c)) (fst (fst arm)) ++ flat_map s_binders (snd (fst arm))) arms
  | SFor x _ v body _ => x :: e_binders v ++ flat_map s_binders body
  end.
Fixpoint dedup (l : list ident) : list ident :=
  match l with [] => [] | x :: l' => if existsb (str_eqb x) l' then dedup l' else x :: dedup l' end.
Definition f_binders (fl : file) : list ident :=
  dedup (map gl_name (f_globals fl) ++ map sh_var (f_shorthands fl) ++ flat_map (fun st => flat_map s_binders (st_stmts st)) (f_stanzas fl)).
Fixpoint subsets (l : list ident) : list (list ident) :=
  match l with [] => [[]] | x :: l' => let r := subsets l' in r ++ map (cons x) r end.
Definition mem (S : list ident) (x : ident) : bool := existsb (str_eqb x) S.
(* is there ANY purity declaration / taint for which the file is in the fragment? *)
Definition ex_file_ok2 (fl : file) : bool := existsb (fun S => b_file_ok2 (mem S) fl) (subsets (f_binders fl)).
Definition ex_pv_file (fl : file) : bool := existsb (fun S => pv_file (mem S) fl) (subsets (f_binders fl)).
Definition ex_checked_ok2 (fl : file) : bool := existsb (fun S => pv_file (mem S) fl && b_file_ok2 (mem S) fl) (subsets (f_binders fl)).
Definition ex_pm_ok3 (fl : file) : bool := existsb (fun S => b_pm_ok3 (mem S) fl) (subsets (f_binders fl)).
Definition has_scoped (fl : file) : bool := negb (b_file (b_fstmt (fun _ => true)) (b_fattr (fun _ => true)) fl).
Definition count (p : file -> bool) (l : list file) : nat := length (filter p l).
