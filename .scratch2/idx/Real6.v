(* AUDIT2: C08 on a FRESH recorded case (C04 stream, P04 index 6, see P04.map): 9 stanzas, scoped variables, 3 inherited names; recorded strict run fails with
   UndefinedVariable (reader before definer), recorded lazy run succeeds.  lazy_block_order_iso_scoped_real_partial applied to the recorded merged-query blocks and their
   REVERSE; cross-checked by evaluation. *)
From Coq Require Import Permutation List Bool NArith.
From TSG Require Import Model.Run Model.Stdlib Model.IdxBridge Proofs.BaseFacts Proofs.IdxStrict Proofs.IdxLazy Proofs.IdxBridge Proofs.IdxReal Proofs.SLExpr Proofs.StrictLazy
  Proofs.SL2Force Proofs.SL2Expr Proofs.SL2Stmt Proofs.SL2Whole Proofs.ScPermSim Proofs.ScPermSwap Proofs.ScPermExec Proofs.BlockPermRen Proofs.BlockPermGraph Proofs.BlockPermExec Proofs.SLAny Proofs.BlockPermStd
  Proofs.IdxRealExample.
From TSG Require Props.C08.
Require Import P04sel.
Import ListNotations.
Open Scope N_scope.
Definition r := pc_6_run. Definition t := pc_6_tree.
Definition cl := the_call t (ri_tbl r).
Lemma blocks_ok_6 : Forall (pm_ok2 (normalize_file (ri_file r)) std_okfn) (ri_lmatches r).
Proof.
  let f := eval vm_compute in (normalize_file (ri_file r)) in let m := eval vm_compute in (ri_lmatches r) in change (Forall (pm_ok2 f std_okfn) m).
  repeat (apply Forall_cons; [intros st E; vm_compute in E; inversion E; subst st; (split; [|apply Forall_nil]);
    cbn [All st_stmts sstmt svar mexpr mattr fexpr is_capture snd fst f_shorthands find_shorthand]; slv2|]). apply Forall_nil.
Qed.
Lemma globals_6 : forall glob, check_globals (f_globals (ri_file r)) (globals_nested (ri_supplied r)) = Ok glob ->
  forall name v, globals_get glob name = Some v -> vall (fun i => i < N.of_nat (length (@nil gnode))) v.
Proof. intros glob E. vm_compute in E. inversion E; subst glob. intros name v H. discriminate. Qed.
Lemma strict_fails : exists e, run_one t config0 None (with_lazy r false) [] = Err e /\ root_cause e = EUndefinedVariable.
Proof. eexists. split; [vm_compute; reflexivity|reflexivity]. Qed.
Lemma lazy_ok : exists ls p, run_lazy t (ri_file r) config0 (ri_supplied r) None (ri_rxs r) rx_captures cl default_fuel (ri_lmatches r) [] = Ok (ls, p) /\ (length (l_graph ls) >= 2)%nat.
Proof. eexists. eexists. split; [vm_compute; reflexivity|vm_compute; repeat constructor]. Qed.
Lemma shape : (length (ri_lmatches r) >= 4)%nat /\ ri_lmatches r <> rev (ri_lmatches r). Proof. split; [vm_compute; repeat constructor|vm_compute; discriminate]. Qed.
Theorem applies_6 : exists ls p,
  run_lazy t (ri_file r) config0 (ri_supplied r) None (ri_rxs r) rx_captures cl default_fuel (ri_lmatches r) [] = Ok (ls, p) /\
  exists rn rn', (forall i, rn' (rn i) = i) /\ (forall i, rn (rn' i) = i) /\
    exists fuel0, forall fuel', (fuel0 <= fuel')%nat -> exists ls' p',
      run_lazy t (ri_file r) config0 (ri_supplied r) None (ri_rxs r) rx_captures cl fuel' (rev (ri_lmatches r)) [] = Ok (ls', p') /\ graph_iso rn (l_graph ls) (l_graph ls').
Proof.
  destruct lazy_ok as (ls & p & E & _). exists ls, p. split; [exact E|].
  destruct (C08.lazy_block_order_iso_scoped_real_partial _ t (ri_file r) (ri_supplied r) (ri_rxs r) rx_captures cl std_okfn (std_okfn_ok _ _) [] nil_closed globals_6
              default_fuel (ri_lmatches r) (rev (ri_lmatches r)) ls p (Permutation_rev _) blocks_ok_6 E) as (rn & rn' & I1 & I2 & _ & H).
  exists rn, rn'. split; [exact I1|]. split; [exact I2|exact H].
Qed.
(* cross-check by evaluation *)
Lemma rev_ok : match run_lazy t (ri_file r) config0 (ri_supplied r) None (ri_rxs r) rx_captures cl default_fuel (rev (ri_lmatches r)) [],
                     run_lazy t (ri_file r) config0 (ri_supplied r) None (ri_rxs r) rx_captures cl default_fuel (ri_lmatches r) [] with
               | Ok (a, _), Ok (b, _) => length (l_graph a) = length (l_graph b) | _, _ => False end.
Proof. vm_compute. reflexivity. Qed.
Print Assumptions applies_6.
