From Coq Require Import List Bool NArith.
From TSG Require Import Model.Run Model.Stdlib Model.IdxBridge Proofs.SL2Force Proofs.SLFailGraph Proofs.SLF2Expr.
Require Import Mirror P04.
Import ListNotations.
Open Scope N_scope.
Definition nf (c : N * tree * run_in) := normalize_file (ri_file (snd c)).
Definition small (c : N * tree * run_in) := Nat.leb (length (f_binders (nf c))) 10.
Definition infrag (c : N * tree * run_in) := small c && has_scoped (nf c) && ex_file_ok2 (nf c) && b_pm_ok2 (nf c).
Definition inh (c : N * tree * run_in) := negb (Nat.eqb (length (f_inherited (ri_file (snd c)))) 0).
Definition strict_store (c : N * tree * run_in) :=
  let r := snd c in
  match run_strict (snd (fst c)) (ri_file r) config0 (ri_supplied r) None (ri_rxs r) rx_captures (the_call (snd (fst c)) (ri_tbl r)) default_fuel (ri_smatches r) [] with
  | Ok (s, _) => Some (s_scoped s) | _ => None end.
Definition isdef sc n name := match scoped_lookup sc n name with Some _ => true | None => false end.
(* boolean inh_antichain: no node defining an inherited name has a proper ancestor defining it *)
Definition antichain_b (c : N * tree * run_in) : bool :=
  match strict_store c with
  | None => false
  | Some sc => let t := snd (fst c) in
     forallb (fun name => forallb (fun n => negb (isdef sc n name) || forallb (fun a => negb (isdef sc a name)) (anc t n))
                                   (map N.of_nat (seq 0 (length (t_nodes t))))) (f_inherited (ri_file (snd c)))
  end.
Definition sok (c : N * tree * run_in) := match strict_store c with Some _ => true | None => false end.
Definition cnt (p : N * tree * run_in -> bool) := length (filter p all_cases).
(* strict succeeds & in fragment ; ... & has inherited names ; ... & antichain holds *)
Eval vm_compute in (cnt (fun c => infrag c && sok c), cnt (fun c => infrag c && sok c && inh c), cnt (fun c => infrag c && sok c && inh c && antichain_b c)).
Eval vm_compute in (map (fun c => fst (fst c)) (filter (fun c => infrag c && sok c && inh c && antichain_b c) all_cases),
                    map (fun c => fst (fst c)) (filter (fun c => infrag c && sok c && inh c && negb (antichain_b c)) all_cases)).
(* failing strict runs in the fragment: root cause *)
Definition scause (c : N * tree * run_in) :=
  let r := snd c in
  match run_strict (snd (fst c)) (ri_file r) config0 (ri_supplied r) None (ri_rxs r) rx_captures (the_call (snd (fst c)) (ri_tbl r)) default_fuel (ri_smatches r) [] with
  | Err e => Some (root_cause e) | _ => None end.
Definition lres (c : N * tree * run_in) : N := match run_one (snd (fst c)) config0 None (with_lazy (snd c) true) [] with Ok _ => 0 | Err _ => 1 | Panic _ => 2 | OutOfFuel => 3 end.
Eval vm_compute in (map (fun c => (fst (fst c), scause c, lres c, length (f_inherited (ri_file (snd c))))) (filter (fun c => infrag c && negb (sok c)) all_cases)).
