From Coq Require Import List Bool NArith.
From TSG Require Import Model.Run Model.Stdlib Model.IdxBridge Proofs.SL2Force.
Require Import P04.
Import ListNotations.
Open Scope N_scope.
Eval vm_compute in (real_smatches pc_123_run).
Eval vm_compute in (map (fun ms => map (fun m => nodes_for_capture m 1) ms) (real_smatches pc_123_run), map (fun ms => map (fun m => nodes_for_capture m 5) ms) (real_smatches pc_123_run)).
Eval vm_compute in (run_one pc_123_tree config0 None (with_lazy pc_123_run false) [], run_one pc_123_tree config0 None (with_lazy pc_123_run true) []).
