#!/bin/sh
# usage: ./cc.sh F.v [timeout]
cd /root/wt/audit2/.scratch2/idx && timeout ${2:-900} coqc -Q /root/wt/audit2/coq/theories TSG -Q . "" -w -notation-overridden,-deprecated-hint-without-locality,-deprecated-instance-without-locality $1 2>&1 | head -${3:-60}
