(* AUDIT2 links/C10 *)
From Coq Require Import List NArith Lia.
From TSG Require Import Model.Scan Spec.ScanSpec Proofs.Scan Model.Strict Model.Lazy Spec.ScanRun Proofs.ScanLink Props.C10.
Import ListNotations.
Open Scope N_scope.

(* (b) composition at STATEMENT level: the fuel the interpreter passes is enough, so the events of the scan statement are
   THE ScanSeq and the status is not out-of-fuel.  Not stated in Props/C10.v, but derivable: *)
Goal forall find, find_wf find -> find_group0 find ->
  forall rs subject, exists evs f,
    Scan.scan_loop find (S (length subject)) rs subject 0 = (evs, f) /\
    ScanSeq find rs subject 0 evs f /\ ev_chain subject 0 evs /\ f <> SOutOfFuel.
Proof.
  intros find W G rs subject.
  destruct (Scan.scan_loop find (S (length subject)) rs subject 0) as [evs f] eqn:R. exists evs, f.
  split; [reflexivity|].
  assert (Hf : (N.to_nat (str_len subject - 0) < S (length subject))%nat).
  { unfold str_len. rewrite N.sub_0_r, Nnat.Nat2N.id. lia. }
  assert (HS : ScanSeq find rs subject 0 evs f) by (apply (loop_complete find W rs subject _ 0 evs f Hf); exact R).
  split; [exact HS|]. split; [exact (loop_chain find W _ _ _ _ _ _ R)|].
  exact (ScanSeq_status find _ _ _ _ _ HS).
Qed.

(* (b) a FAILING arm body: the refinement is for every run_arm; on the C10 example with a runner that fails the loop
   returns that error after the first arm (so the link is not only about always-succeeding runners) *)
Goal exists e, Strict.scan_loop rx_captures (fun _ _ => fail EUndefinedFunction) [(0, [], (0,0)); (1, [], (0,0)); (2, [], (0,0))]
                 ex_arms ex_subject 5 0 (sinit []) (polls0 None) = Err e.
Proof.
  rewrite (strict_scan_refines_scan_model _ rx_captures_has_group0). vm_compute. eexists. reflexivity.
Qed.

(* is the refinement an identity (rule 4)?  reflexivity must FAIL *)
Goal forall find run_arm arms rs subject fuel i st p,
    Strict.scan_loop find run_arm arms rs subject fuel i st p =
    strict_scan_fold run_arm arms subject i
      (fst (Scan.scan_loop find fuel rs subject i)) (snd (Scan.scan_loop find fuel rs subject i)) st p.
Proof. intros. Fail reflexivity. Abort.

(* without find_group0 the equation is false?  (models differ on a group-0-less answer) : find := always Some [None] *)
Goal let find := (fun (_ : regex) (_ : str) => Some [@None (N*N)]) in
  Strict.scan_loop find (fun _ _ => ret tt) [(0, [], (0,0))] [RChr 97] [97] 2 0 (sinit []) (polls0 None) <>
  strict_scan_fold (fun _ _ => ret tt) [(0, [], (0,0))] [97] 0
      (fst (Scan.scan_loop find 2 [RChr 97] [97] 0)) (snd (Scan.scan_loop find 2 [RChr 97] [97] 0)) (sinit []) (polls0 None).
Proof. cbv zeta. vm_compute. discriminate. Qed.

Print Assumptions strict_scan_refines_scan_model.
Print Assumptions lazy_scan_stmt_refines_scan_model.
Print Assumptions strict_scan_spec.
Print Assumptions lazy_empty_match_is_error.
