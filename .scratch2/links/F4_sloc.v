(* AUDIT2 links/C07: what `erase_stmt_locs` forgets besides locations, and what sloc really does to those fields *)
From Coq Require Import List NArith Lia.
From TSG Require Import Model.Parser Model.VarDisplay Spec.Render Proofs.ParseRender Proofs.SlocErase Props.C07.
Import ListNotations.
Open Scope N_scope.

(* 1. erase identifies statements that differ in NON-location fields *)
(* 1a. node text *)
Goal erase_stmt_locs (SNode (VarU [110] (0,0)) [1;2;3] (0,0)) = erase_stmt_locs (SNode (VarU [110] (0,0)) [110] (0,0)).
Proof. reflexivity. Qed.
(* 1b. capture quantifier / file index / stanza index *)
Goal erase_stmt_locs (SPrint [ECapture [120] QStar 3 4 (0,0)] (0,0)) = erase_stmt_locs (SPrint [ECapture [120] QOne 0 0 (0,0)] (0,0)).
Proof. reflexivity. Qed.
(* 1c. scan arm numbers: arms 5 and 0 (different regexes of a table) *)
Goal erase_stmt_locs (SScan (EStr []) [(5, [], (0,0))] (0,0)) = erase_stmt_locs (SScan (EStr []) [(0, [], (0,0))] (0,0)).
Proof. reflexivity. Qed.
(* 1d. stanza: full-match FILE index *)
Goal forall q, erase_item_locs (IStanza q {| st_stmts := []; st_full_stanza_idx := 1; st_full_file_idx := 7; st_start := (0,0) |}) =
               erase_item_locs (IStanza q {| st_stmts := []; st_full_stanza_idx := 1; st_full_file_idx := 1; st_start := (3,0) |}).
Proof. reflexivity. Qed.

(* 2. what sloc REALLY changes on these fields *)
(* 2a. node text: sloc KEEPS it (the comments of SlocErase.v / Props/C07.v say "reset to []": stale) — so erasing it is over-erasure:
       the theorem would still hold of an sloc that garbled the text *)
Goal forall tbl L p k, match sloc tbl L p k (SNode (VarU [110] (0,0)) [1;2;3] (0,0)) with SNode _ t _ => t = [1;2;3] | _ => False end.
Proof. intros. reflexivity. Qed.
(* 2b. capture resolution: sloc UN-resolves (QStar 3 4 -> QZero u32_max u32_max): a non-location change *)
Goal sloc [] ex_layout (0,0) 0 (SPrint [ECapture [120] QStar 3 4 (0,0)] (0,0)) <> SPrint [ECapture [120] QStar 3 4 (0,0)] (0,0)
  /\ exists l1 l2, sloc [] ex_layout (0,0) 0 (SPrint [ECapture [120] QStar 3 4 (7,7)] (7,7)) = SPrint [ECapture [120] QZero u32_max u32_max l1] l2.
Proof. split; [intros H; vm_compute in H; discriminate|]. vm_compute. eexists. eexists. reflexivity. Qed.
(* 2c. arm number: 5 -> k *)
Goal exists v l a, sloc [[];[];[];[];[];[97]] ex_layout (0,0) 0 (SScan (EUnscoped [120] (0,0)) [(5, [], (0,0))] (0,0)) = SScan v [(0, [], a)] l.
Proof. vm_compute. eexists. eexists. eexists. reflexivity. Qed.

(* 3. a wrong "sloc" that the headline equation would NOT distinguish from the real one: swaps capture quantifiers, garbles node text *)
Definition bad (st : stmt) : stmt :=
  match st with
  | SNode v _ l => SNode v [66;65;68] l
  | SPrint [ECapture n _ _ _ l0] l => SPrint [ECapture n QPlus 99 98 l0] l
  | _ => st end.
Goal forall v t l, erase_stmt_locs (bad (SNode v t l)) = erase_stmt_locs (SNode v t l). Proof. reflexivity. Qed.
Goal forall n q a b l0 l, erase_stmt_locs (bad (SPrint [ECapture n q a b l0] l)) = erase_stmt_locs (SPrint [ECapture n q a b l0] l). Proof. reflexivity. Qed.

(* 4. parse_statement_recovers_ast therefore does not say that the text of a parsed node statement is right; that is only in
      WfStmt + parse_render_stmt (sloc keeps t) *)
Print Assumptions sloc_changes_locations_only.
Print Assumptions parse_statement_recovers_ast.
