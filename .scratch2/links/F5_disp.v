(* AUDIT2 links: display_variable on tricky variables, to compare by hand with ast.rs Display *)
From Coq Require Import List NArith Lia String Ascii.
From TSG Require Import Model.Parser Model.VarDisplay Spec.Render Model.AstDisplay Props.C20disp.
Import ListNotations.
Open Scope N_scope.

Definition s2n (s : string) : list N := map (fun a => N.of_nat (nat_of_ascii a)) (list_ascii_of_string s).
Fixpoint n2s (l : list N) : string := match l with [] => EmptyString | c :: l' => String (ascii_of_nat (N.to_nat c)) (n2s l') end.
Definition E0 := dpenv_of [].
Definition E1 := dpenv_of [(769, false); (233, true)].
Definition l0 : loc := (0,0).

(* 1. @x.y            Rust: "@x.y"  (quantifier suffix never printed) *)
Eval vm_compute in n2s (display_variable E0 (VarS (ECapture (s2n "x") QOpt 3 4 l0) (s2n "y") l0)).
(* 2. (call a b).y    Rust: "(call a b).y" *)
Eval vm_compute in n2s (display_variable E0 (VarS (ECall (s2n "call") [EUnscoped (s2n "a") l0; EUnscoped (s2n "b") l0]) (s2n "y") l0)).
(* 3. @a.b.c          Rust: "@a.b.c" *)
Eval vm_compute in n2s (display_variable E0 (VarS (EScoped (ECapture (s2n "a") QOne 0 0 l0) (s2n "b") l0) (s2n "c") l0)).
(* 4. (f "q\"\\<LF><TAB><NUL><DEL>' " #true #false #null 07 [1,2] {} [ x for x in @l ] $3).y
      Rust: (f "q\"\\\n\t\0\u{7f}' " true false #null 7 [1, 2] {} [ x for x in @l ] $3).y *)
Eval vm_compute in n2s (display_variable E0
  (VarS (ECall (s2n "f") [EStr ([113;34;92;10;9;0;127;39;32]); ETrue; EFalse; ENull; EInt 7; EList [EInt 1; EInt 2]; ESet [];
                          EListComp (EUnscoped (s2n "x") l0) (s2n "x") l0 (ECapture (s2n "l") QStar 0 0 l0) l0; ERegexCap 3]) (s2n "y") l0)).
(* 5. non-ASCII: e-acute U+E9 (printable: verbatim), combining acute U+301 (Grapheme_Extend: Rust prints \u{301}), U+1 -> \u{1}.
      With the table: "\u{e9}" verbatim (here shown as raw code points) *)
Eval vm_compute in (display_variable E1 (VarS (ECall (s2n "f") [EStr [233; 769; 1]]) (s2n "y") l0)).
(* without a table row the model prints U+301 VERBATIM (Rust: \u{301}) — x_print must have the row (stream: ORACLE_MISS otherwise?) *)
Eval vm_compute in (display_variable E0 (VarS (ECall (s2n "f") [EStr [769]]) (s2n "y") l0)).

(* the parser model on three node statements: text field *)
Definition nl : string := String (ascii_of_nat 10) EmptyString.
Definition bs : string := String (ascii_of_nat 92) EmptyString.
Definition dq : string := String (ascii_of_nat 34) EmptyString.
Definition txt : list N := s2n ("(m) @a {" ++ nl ++ "  node (f " ++ dq ++ "a" ++ bs ++ dq ++ "b" ++ bs ++ "n" ++ dq ++ ").y" ++ nl ++ "  node @a.b.c" ++ nl ++ "  node n" ++ nl ++ "}" ++ nl)%string.
Definition node_texts r : list string :=
  match r with Parser.POk f _ => flat_map (fun s => match s with SNode _ t _ => [n2s t] | _ => [] end) (AstDisplay.file_stmts f) | _ => [] end.
Eval vm_compute in node_texts (Parser.parse pex_ext (Parser.fuel_of txt) txt).

Print Assumptions parsed_node_text.
Print Assumptions loaded_node_text.
