(* AUDIT2 links/C04 *)
From Coq Require Import List NArith Lia.
From TSG Require Import Model.Strict Model.Lazy Proofs.Scoped Proofs.ScopedLink Props.C04.
Import ListNotations.
Open Scope N_scope.

Definition nd (par : option N) (ch : list N) : tnode :=
  {| tn_kind := []; tn_named := true; tn_error := false; tn_missing := false; tn_parent := par; tn_children := ch;
     tn_start := (0,0); tn_end := (0,0); tn_span := (0,0) |}.
Definition t3 : tree := {| t_src := []; t_nodes := [nd None [1]; nd (Some 0) [2]; nd (Some 1) []] |}.
Definition flI (inh : list ident) : file := {| f_globals := []; f_inherited := inh; f_shorthands := []; f_stanzas := [] |}.
Definition call0 : ident -> graph -> list value -> res (value * graph) := fun _ _ _ => Err EUndefinedFunction.
Definition d0 : stmt_ctx := {| sc_stmt := (1,1); sc_stanza := (0,0); sc_node := 0 |}.
Definition pairs01 := [(LValue (VSyn 0), LValue (VInt 7), d0); (LValue (VSyn 1), LValue (VInt 8), d0)].
Definition s_cell : lstate := with_cell (linit []) [120] (SVUnforced pairs01).

(* (b) non-vacuity of lazy_scoped_lookup_rule on the REAL eval_lv: x inherited, defined on nodes 0 and 1, read at node 2:
   the rule applies (all four hypotheses by computation) and yields the NEAREST ancestor's (node 1) value 8 *)
Goal exists s' p', eval_lv t3 (flI [[120]]) call0 4 (LScoped (LValue (VSyn 2)) [120]) s_cell (polls0 None) = Ok (VInt 8, s', p').
Proof.
  erewrite lazy_scoped_lookup_rule;
    [ | vm_compute; reflexivity | vm_compute; reflexivity | vm_compute; reflexivity | vm_compute; reflexivity ].
  vm_compute. eexists. eexists. reflexivity.
Qed.

(* not inherited: the same read is UndefinedScopedVariable *)
Goal eval_lv t3 (flI []) call0 4 (LScoped (LValue (VSyn 2)) [120]) s_cell (polls0 None) = Err EUndefinedScopedVariable.
Proof.
  erewrite lazy_scoped_lookup_rule;
    [ | vm_compute; reflexivity | vm_compute; reflexivity | vm_compute; reflexivity | vm_compute; reflexivity ].
  vm_compute. reflexivity.
Qed.

(* a scope expression that is NOT pure: a scoped read inside the scope of a definition (re-entrant forcing of ANOTHER cell).
   `scopes_run` is satisfiable there — the hypothesis of the link is not "scopes are pure".
   cell y: node 0 -> (VSyn 1);  cell x: definition whose scope is `@0.y`  (evaluates to node 1, forcing cell y on the way) *)
Definition pairs_y := [(LValue (VSyn 0), LValue (VSyn 1), d0)].
Definition pairs_x := [(LScoped (LValue (VSyn 0)) [121], LValue (VInt 9), d0)].
Definition s2c : lstate := with_cell (with_cell (linit []) [121] (SVUnforced pairs_y)) [120] (SVUnforced pairs_x).
Goal exists s' p', scopes_run (scope_ev t3 (flI []) call0 5) pairs_x s2c (polls0 None) [1] s' p' /\
   alist_get [121] (l_scoped s') = Some (SVForced [(0, LValue (VSyn 1))]) /\
   force_scoped t3 (flI []) call0 6 [120] (SVUnforced pairs_x) s2c (polls0 None) = Ok ([(1, LValue (VInt 9))], s', p').
Proof.
  eexists. eexists. split; [|split].
  - econstructor; [vm_compute; reflexivity|]. constructor.
  - vm_compute. reflexivity.
  - vm_compute. reflexivity.
Qed.

Print Assumptions lazy_scoped_lookup_rule.
Print Assumptions lazy_force_spec_interp.
Print Assumptions lazy_force_refines_force_pairs.
