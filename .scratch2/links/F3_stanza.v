(* AUDIT2 links/C08: the two-file theorems take `Permutation (f_stanzas fl) (f_stanzas fl')` (or Permutation of blocks_of).
   For two files the LOADER MODEL returns for the two orderings of the same two stanzas, this hypothesis is FALSE. *)
From Coq Require Import List NArith Lia String Ascii Permutation.
From TSG Require Import Model.Lazy Model.Parser Model.Checker Model.Loader Proofs.StanzaPerm Props.C20disp Props.C08 Proofs.BlockPermExample.
Import ListNotations.
Open Scope N_scope.

Definition s2n (s : string) : list N := map (fun a => N.of_nat (nat_of_ascii a)) (list_ascii_of_string s).
Definition nl : string := String (ascii_of_nat 10) EmptyString.
Definition stA : string := ("(a) @x {" ++ nl ++ "  print @x" ++ nl ++ "}" ++ nl)%string.
Definition stB : string := ("(b) @y {" ++ nl ++ "  print @y" ++ nl ++ "}" ++ nl)%string.
Definition textAB : list N := s2n (stA ++ stB).
Definition textBA : list N := s2n (stB ++ stA).

(* query tables as tree-sitter gives them for the merged query: capture names numbered in order of first appearance *)
Definition qAB : Checker.query_tables :=
  {| Checker.qt_stanza_names := [[[120]; Checker.FULL_MATCH]; [[121]; Checker.FULL_MATCH]];
     Checker.qt_file_names := [[120]; Checker.FULL_MATCH; [121]];
     Checker.qt_file_quants := [[QOne; QOne; QZero]; [QZero; QOne; QOne]]; Checker.qt_nullable := [false; false] |}.
Definition qBA : Checker.query_tables :=
  {| Checker.qt_stanza_names := [[[121]; Checker.FULL_MATCH]; [[120]; Checker.FULL_MATCH]];
     Checker.qt_file_names := [[121]; Checker.FULL_MATCH; [120]];
     Checker.qt_file_quants := [[QOne; QOne; QZero]; [QZero; QOne; QOne]]; Checker.qt_nullable := [false; false] |}.

Definition ldAB := Loader.load pex_ext qAB (Parser.fuel_of textAB) textAB.
Definition ldBA := Loader.load pex_ext qBA (Parser.fuel_of textBA) textBA.

Definition stanzas_of (r : Loader.load_result) : list stanza := match r with Loader.LdOk f _ => f_stanzas f | _ => [] end.
Definition file_of (r : Loader.load_result) : file :=
  match r with Loader.LdOk f _ => f | _ => {| f_globals := []; f_inherited := []; f_shorthands := []; f_stanzas := [] |} end.

Definition flAB : file := Eval vm_compute in file_of ldAB.
Definition flBA : file := Eval vm_compute in file_of ldBA.
Goal ldAB = Loader.LdOk flAB [] /\ ldBA = Loader.LdOk flBA [].
Proof. split; vm_compute; reflexivity. Qed.
(* both load *)
Goal (exists f p, ldAB = Loader.LdOk f p) /\ (exists f p, ldBA = Loader.LdOk f p).
Proof. split; vm_compute; eexists; eexists; reflexivity. Qed.

(* what the two loaded files look like *)
Eval vm_compute in (stanzas_of ldAB).
Eval vm_compute in (stanzas_of ldBA).

(* same_rest holds, but the stanza lists are NOT a permutation of each other: st_start, statement locations and the
   file capture index of @x / @y (0 vs 2) all differ *)
Goal same_rest flAB flBA.
Proof. repeat split. Qed.

Goal ~ Permutation (f_stanzas flAB) (f_stanzas flBA).
Proof.
  intros P.
  assert (H : In (nth 0 (f_stanzas flAB) {| st_stmts := []; st_full_stanza_idx := 0; st_full_file_idx := 0; st_start := (0,0) |})
                 (f_stanzas flBA)).
  { apply (Permutation_in _ P). left. reflexivity. }
  destruct H as [H|[H|[]]]; discriminate.
Qed.

(* hence no match lists with a block on stanza 0 of fl make the block hypothesis true *)
Goal forall m ms ms', ~ Permutation (blocks_of flAB ((0, m) :: ms)) (blocks_of flBA ms').
Proof.
  intros m ms ms' P.
  assert (H : In (nth_error (f_stanzas flAB) 0, m) (blocks_of flBA ms')).
  { apply (Permutation_in _ P). left. reflexivity. }
  unfold blocks_of in H. apply in_map_iff in H. destruct H as ([j m'] & E & _). cbn [fst snd] in E.
  injection E as E _.
  destruct (N.to_nat j) as [|[|k]]; [discriminate|discriminate|]. destruct k; discriminate.
Qed.

Goal f_stanzas c8_file_swapped = rev (f_stanzas BlockPermExample.c8_file). Proof. reflexivity. Qed.
Goal BlockPermExample.c8_ms = [(0, BlockPermExample.c8_m); (1, BlockPermExample.c8_m)]. Proof. reflexivity. Qed.

Print Assumptions lazy_stanza_order_iso_partial.
Print Assumptions stanza_permutation_is_block_permutation.
