From TSG Require Import Model.Strict Model.ErrRender Model.ErrChain Proofs.ErrChain.
From TSG Require Import Props.C20.
Import ListNotations.

(* 1. cites3 does not discriminate: exA_chain has its source excerpt at (0,0); rendered with tsg_path "a/r.tsg" and
   src_path "r.tsg", the text "cites" source position (3,6) (the DSL citation "a/r.tsg:4:7:" contains "r.tsg:4:7:") *)
Definition tp : str := [97;47;114;46;116;115;103].   (* a/r.tsg *)
Definition sp : str := [114;46;116;115;103].         (* r.tsg *)
Example cites3_wrong_source_pos :
  let out := render_pretty default_wording tp exA_tsg sp [] exA_chain in
  cites3 tp sp out (3,6) (0,0) (3,6)       (* source position (3,6): the chain says (0,0) *)
  /\ cites3 tp sp out (3,6) (0,0) (0,0).
Proof. vm_compute. repeat split. Qed.

(* 2. shows3: a chain citing a BLANK row / a row consisting of "}" — shows3 holds of ANY output, e.g. the empty text /
   the text "}" *)
Definition tsg2 : str := [40;97;41;10;10;125;10].    (* "(a)\n\n}\n" *)
Example shows3_blank_trivial : shows3 tsg2 [] [] (1,0) (1,0) (0,0).
Proof. unfold shows3. vm_compute. repeat split; intros l H; try discriminate; injection H as <-; reflexivity. Qed.
Example shows3_brace : shows3 tsg2 [] [125] (2,0) (2,0) (0,0).
Proof. unfold shows3. vm_compute. repeat split; intros l H; try discriminate; injection H as <-; reflexivity. Qed.

(* 3. counter-model: a "renderer" that prints the three citations in the WRONG order under the wrong headings and then dumps
   the DSL text satisfies the conclusions of render_pretty_cites and render_pretty_shows_lines on example A *)
Definition bad_out : str := cite sp 0 0 ++ cite tp 0 0 ++ cite tp 3 6 ++ exA_tsg.
Example bad_renderer_passes :
  cites3 tp sp bad_out (3,6) (0,0) (0,0) /\ shows3 exA_tsg [] bad_out (3,6) (0,0) (0,0).
Proof.
  split; [vm_compute; repeat split|].
  unfold shows3. repeat split; intros l H; vm_compute in H; try discriminate; injection H as <-; vm_compute; reflexivity.
Qed.

(* 4. the end-to-end theorems quantify over tsg, src, node_pos, stmt_text independently of the run: instantiate
   strict_error_rendering_cites's arguments with texts unrelated to fl / t *)
Check (fun rx t fl cfg glob regexes find call fuel sts ms s p e =>
  @strict_error_rendering_shows_lines rx t fl cfg glob regexes find call fuel sts ms s p e
     (fun _ => [88]) (fun _ => [89]) (fun _ => [90]) (fun _ => (41,41)) (fun _ => []) default_wording [] [1;2;3] [] [4;5;6]).
