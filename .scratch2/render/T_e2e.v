From TSG Require Import Model.Strict Model.Lazy Model.ErrRender Model.ErrChain Model.AstDisplay Model.Loader Model.Stdlib.
From TSG Require Model.Parser Model.Checker.
From TSG Require Import Proofs.ErrChain Proofs.ErrorCtxValid Props.C20 Props.C20disp Props.C05render.
Import ListNotations.

(* "(a) @x {\n  edge 1 -> 2\n}\n" *)
Definition T : str := [40;97;41;32;64;95;120;32;123;10;32;32;101;100;103;101;32;49;32;45;62;32;50;10;125;10].
Definition Q : Checker.query_tables :=
  {| Checker.qt_stanza_names := [[[95;120]; Checker.FULL_MATCH]]; Checker.qt_file_names := [[95;120]; Checker.FULL_MATCH];
     Checker.qt_file_quants := [[QOne; QOne]]; Checker.qt_nullable := [] |}.
Definition L := Loader.load pex_ext Q (Parser.fuel_of T) T.
Definition FL : file := {| f_globals := []; f_inherited := []; f_shorthands := []; f_stanzas := [{| st_stmts := [SEdge (EInt 1) (EInt 2) (1, 2)]; st_full_stanza_idx := 1; st_full_file_idx := 1; st_start := (0, 0) |}] |}.
Definition rxo : regex_oracle := fun _ _ _ => None.
Eval vm_compute in L.
Definition R := run_lazy ex_tree FL config0 [[]] None (@nil unit) (fun _ _ => None) (stdlib_call rxo ex_tree) 50 [(0, [(0, [7]); (1, [7])])] [].
Eval vm_compute in R.
Definition Estrict := run_strict ex_tree FL config0 [[]] None (@nil unit) (fun _ _ => None) (stdlib_call rxo ex_tree) 50 [[[(0, [7]); (1, [7])]]] [].
Eval vm_compute in Estrict.

Lemma L_ok : exists pats, Loader.load pex_ext Q (Parser.fuel_of T) T = Loader.LdOk FL pats.
Proof. exists []. vm_compute. reflexivity. Qed.
Definition ERR := EInContext (CtxStmts [{| sc_stmt := (1, 2); sc_stanza := (0, 0); sc_node := 7 |}]) (EInContext CtxOther EExpectedGraphNode).
Lemma R_err : run_lazy ex_tree FL config0 [[]] None (@nil unit) (fun _ _ => None) (stdlib_call rxo ex_tree) 50 [(0, [(0, [7]); (1, [7])])] [] = Err ERR. Proof. vm_compute. reflexivity. Qed.

(* the _loaded_stdlib theorem applies to a loaded real text + a stdlib run: third disjunct *)
Definition CH := chain_of_error_disp (dpenv_of []) FL (fun _ => [63]) (fun _ => [75]) (fun n => (0, 0)) (fun _ => [79]) ERR.
Example e2e_applies :
  let out := render_pretty default_wording [114] T [115] [] CH in
  cites3 [114] [115] out (1,2) (0,0) (0,0) /\
  contains (display_stmt (dpenv_of []) (SEdge (EInt 1) (EInt 2) (1, 2))) out = true.
Proof.
  cbv zeta. destruct L_ok as [pats HL].
  Time pose proof (@lazy_error_rendering_cites_disp_loaded_stdlib unit pex_ext Q (Parser.fuel_of T) T pats rxo ex_tree FL config0 [[]] None [] (fun _ _ => None) 50 [(0, [(0, [7]); (1, [7])])] [] ERR
     (dpenv_of []) (fun _ => [63]) (fun _ => [75]) (fun n => (0, 0)) (fun _ => [79]) default_wording [114] T [115] [] HL R_err) as H.
  fold CH in H.
  Time destruct H as [H|[[l H]|(cs & e0 & He & _ & Hall)]]; [vm_compute in H; discriminate|unfold ERR in H; discriminate|].
  unfold ERR in He. injection He as <- <-. apply Forall_inv in Hall.
  destruct Hall as [_ [Hc (s' & Hs & _ & Hd)]].
  split; [exact Hc|]. Time vm_compute in Hs. injection Hs as <-. exact Hd.
Time Qed.
Eval vm_compute in (render_pretty default_wording [114] T [115] [] CH).
