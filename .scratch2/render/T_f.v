From TSG Require Import Model.Strict Model.AstDisplay.
From TSG Require Model.Parser.
From TSG Require Import Props.C20 Props.C20disp.
Import ListNotations.
(* (a) @_x {\n  print "a<raw LF>b\n<backslash n>é"\n}\n   : raw line break AND escape \n inside a string literal, plus U+0085 *)
Definition TF : str := [40;97;41;32;64;95;120;32;123;10;32;32;112;114;105;110;116;32;34;97;10;98;92;110;233;133;34;10;125;10].
Definition PF := Parser.parse pex_ext (Parser.fuel_of TF) TF.
Eval vm_compute in PF.
Definition texts := match PF with Parser.POk f _ => map (display_stmt (dpenv_of [])) (file_stmts f) | _ => [] end.
Eval vm_compute in texts.
(* "print "a\nb\né<U+0085>", at (2, 3)": the model prints U+0085 VERBATIM with the empty table (Rust escapes it as \u{85}) *)
Example f_check : exists f p, PF = Parser.POk f p /\ forallb (fun t => negb (existsb (N.eqb 10) t)) texts = true
   /\ existsb (existsb (N.eqb 133)) texts = true.
Proof. destruct PF eqn:E; try (vm_compute in E; discriminate). do 2 eexists. split; [reflexivity|]. vm_compute. split; reflexivity. Qed.
