From TSG Require Import Model.Strict Model.Lazy Model.ErrRender Model.ErrChain Model.AstDisplay Model.LoadErrRender Model.LoadErrOf Model.Loader.
From TSG Require Model.Parser Model.Checker.
From TSG Require Import Props.C20 Props.C20disp Props.C05render.
Import ListNotations.

(* load_error_pretty_eq *)
Goal forall path src msg e, load_error_pretty path src msg e
  = msg ++ [10] ++ excerpt path src (fst (le_loc e)) (snd (le_loc e)) (snd (le_loc e) + 1).
Proof. intros. destruct e; reflexivity. Qed.

(* excerpt_ind_generalises *)
Goal forall path src row cs ce, excerpt_ind 0 path src row cs ce = excerpt path src row cs ce.
Proof. intros. reflexivity. Qed.

(* display_stmt_total, first conjunct *)
Goal forall E s, exists text, display_stmt E s = text.
Proof. intros. eexists. reflexivity. Qed.

(* entry_head_numeral, first conjunct *)
Goal forall i, entry_head i = spaces (5 - N.of_nat (length (dec i))) ++ dec i ++ [58;32].
Proof. intros. unfold entry_head, pad5. rewrite <- app_assoc. reflexivity. Qed.

(* load_error_pretty_check *)
Goal forall path src msg v l, load_error_pretty path src msg (LCheck v l) = check_error_pretty path src msg l.
Proof. reflexivity. Qed.

(* load_error_pretty_message_first: structural *)
(* excerpt_missing_source *)
Goal forall ind path src row cs ce, nth_error (lines src) (N.to_nat row) = None ->
  excerpt_ind ind path src row cs ce = spaces ind ++ cite path row cs ++ [10] ++ spaces ind ++ missing_source ++ [10].
Proof. intros. unfold excerpt_ind. rewrite H. rewrite <- !app_assoc. reflexivity. Qed.

(* load_spec *)
Goal forall X q fuel text,
  load X q fuel text =
  match Parser.parse X fuel text with
  | Parser.POk f pats =>
      match Checker.check_file q f with
      | Checker.CkOk f' => LdOk f' pats
      | Checker.CkErr v l _ => LdErr (LCheck v l)
      | Checker.CkPanic n => LdPanic n
      end
  | Parser.PErr v l _ => LdErr (LParse v l)
  | Parser.PPanic n => LdPanic n
  | Parser.PFuel => LdFuel
  | Parser.PMiss => LdMiss
  end.
Proof.
  intros. unfold load, Parser.parse, Checker.check_file.
  destruct (Parser.parse_into_file X fuel (Parser.init_state text)); try reflexivity.
  - unfold Checker.check_file_with. destruct (Checker.check_file_ck _ q _); try reflexivity.
  - unfold load_error_of_parse. destruct (Parser.error_obs e) as [[v l] p]. reflexivity.
Qed.

(* loader_error_value *)
Goal forall X q fuel text e,
  load X q fuel text = LdErr e ->
  (exists pe, Parser.parse_into_file X fuel (Parser.init_state text) = Parser.RErr pe /\ e = load_error_of_parse pe) \/
  (exists a s ce, Parser.parse_into_file X fuel (Parser.init_state text) = Parser.ROk a s /\
                  Checker.check_file_ck (fun l => l) q (Parser.file_of_acc a) = Err ce /\ e = load_error_of_check ce).
Proof.
  intros X q fuel text e. unfold load.
  destruct (Parser.parse_into_file X fuel (Parser.init_state text)); try discriminate.
  - destruct (Checker.check_file_ck _ q _) eqn:E; try discriminate. intros [= <-]. right. do 3 eexists. repeat split. exact E.
  - intros [= <-]. left. eexists. split; reflexivity.
Qed.

(* render_pretty_entries: the fold restated *)
Goal forall w tsg_path tsg src_path src ch,
  render_pretty w tsg_path tsg src_path src ch
  = concat (map (fun p => render_ctx w tsg_path tsg src_path src (fst p) (snd p)) (number_from 0 (ch_ctxs ch)))
    ++ entry_head (N.of_nat (length (ch_ctxs ch))) ++ ch_cause ch ++ [10].
Proof.
  intros. unfold render_pretty. generalize (ch_ctxs ch) as cs. 
  assert (forall cs i, render_from w tsg_path tsg src_path src i cs (ch_cause ch) =
     concat (map (fun p => render_ctx w tsg_path tsg src_path src (fst p) (snd p)) (number_from i cs))
     ++ entry_head (i + N.of_nat (length cs)) ++ ch_cause ch ++ [10]).
  { induction cs as [|c r IH]; intros i; cbn [render_from number_from map concat length app].
    - rewrite N.add_0_r. reflexivity.
    - rewrite IH. replace (i + N.of_nat (S (length r))) with (i + 1 + N.of_nat (length r)) by (rewrite Nat2N.inj_succ; lia).
      rewrite <- app_assoc. reflexivity. }
  intros cs. rewrite H. reflexivity.
Qed.

Print Assumptions error_rendering_cites_all.
Print Assumptions strict_error_rendering_cites_stdlib.
Print Assumptions lazy_error_rendering_cites_disp_loaded_stdlib.
Print Assumptions loader_error_rendering_cites.
Print Assumptions parsed_stmt_text_single_line.
