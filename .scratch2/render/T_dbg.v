From TSG Require Import Model.LoadErrRender Model.LoadErrOf Model.Loader.
From TSG Require Model.Parser Model.Checker.
Print Parser.parse. Print Checker.check_file. Print Parser.error_obs.
