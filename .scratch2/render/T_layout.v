From TSG Require Import Model.ErrRender.
Import ListNotations.
(* the full layout of a one-statement entry is the DEFINITION of render_stmt (no Props theorem states it) *)
Goal forall w tp t sp s i c,
  render_ctx w tp t sp s i (RStmts [c]) =
  ((entry_head i ++ w_first w) ++ sx_stmt c ++ [10]
  ++ excerpt_loc 7 tp t (sx_stmt_loc c)
  ++ spaces 7 ++ w_stanza w ++ [10]
  ++ excerpt_loc 7 tp t (sx_stanza_loc c)
  ++ spaces 7 ++ w_match_pre w ++ sx_kind c ++ w_match_post w ++ [10]
  ++ excerpt_loc 7 sp s (sx_src_loc c)) ++ [].
Proof. reflexivity. Qed.
