#!/bin/bash
# Run once after a fresh restore (offline): full .vo build of the Coq development, harness build.
set -e
cd "$(dirname "$0")"
export CARGO_NET_OFFLINE=true
mkdir -p .work evidence replays
( cd coq && coq_makefile -f _CoqProject -o Makefile >/dev/null && timeout 3000 make -j16 )
[ -f harness/Cargo.lock ] || cp /repo/Cargo.lock harness/Cargo.lock
( cd harness && cargo build --release --offline )
# C19: first build of /repo's command-line tool (--features cli) into .work/cli-target and of the loader
# environment .work/cli-env, so that the quick check only does an incremental build
python3 -c "import sys; sys.path.insert(0, 'lib'); import vcheck; ok, err, _ = vcheck.pre_cli(); print(err, end=''); sys.exit(0 if ok else 1)"
echo "setup done"
