#!/bin/bash
# Run once after a fresh restore (offline): full .vo build of the Coq development, harness build.
set -e
cd "$(dirname "$0")"
export CARGO_NET_OFFLINE=true
mkdir -p .work evidence replays
( cd coq && coq_makefile -f _CoqProject -o Makefile >/dev/null && timeout 3000 make -j16 )
[ -f harness/Cargo.lock ] || cp /repo/Cargo.lock harness/Cargo.lock
( cd harness && cargo build --release --offline )
echo "setup done"
